"""Generation of service definitions, behaviours and call scripts from the tape."""

from __future__ import annotations

from dataclasses import dataclass, field
from typing import Any, ClassVar, Protocol  # noqa: F401

from . import rt

PARAM_TYPES = ["int", "str", "float", "bytes", "bool", "optint", "listint", "color", "dc"]
RET_TYPES = ["int", "str", "float", "bytes", "bool", "optint", "listint", "color", "dc", "none"]
LEVELS = ["INFO", "DEBUG", "WARN", "ERROR", "TRACE"]
EXC_NAMES = ["ValueError", "RuntimeError", "KeyError", "TypeError", "UserBoom", "ZeroDivisionError",
             "MethodNotImplementedError", "ProtocolVersionError", "SessionLostError", "ServerDrainingError",
             "ArrowInvalid"]
MESSAGES = ["boom", "", "ünï©ödé ✓ message", "line one\nline two\n  indented", "x" * 20_000, "  padded  ",
            "msg with 'quotes' and \"dq\""]


@dataclass
class MethodSpec:
    name: str
    kind: str  # unary | producer | exchange
    params: list[tuple[str, str]] = field(default_factory=list)  # (name, typename) besides tag
    defaults: dict[str, str] = field(default_factory=dict)  # name -> source of default
    ret: str = "int"
    header: bool = False
    state_cls: str = "PStateA"


@dataclass
class Service:
    methods: list[MethodSpec]
    protocol: Any
    impl_cls: Any
    source: str
    version: str | None = None

    def spec(self, name: str) -> MethodSpec:
        for m in self.methods:
            if m.name == name:
                return m
        raise KeyError(name)


_DEFAULT_SRC = {"int": "7", "str": "'dflt'", "float": "1.5", "bool": "True", "optint": "None"}
_DEFAULT_VAL = {"int": 7, "str": "dflt", "float": 1.5, "bool": True, "optint": None}


def gen_service(ch: Any, *, n_methods: int | None = None, names: list[str] | None = None, version: str | None = None,
                uid: str = "") -> Service:
    """Draw a service definition.  Always at least one of each kind when n>=3."""
    n = n_methods if n_methods is not None else 3 + ch.choose(4, "svc.n")
    methods: list[MethodSpec] = []
    kinds = ["unary", "producer", "exchange"]
    for i in range(n):
        kind = kinds[i] if i < 3 else kinds[ch.choose(3, f"svc.m{i}.kind")]
        name = names[i] if names and i < len(names) else f"{kind[0]}{i}"
        m = MethodSpec(name=name, kind=kind)
        np_ = ch.choose(4, f"svc.m{i}.nparams")
        for j in range(np_):
            t = PARAM_TYPES[ch.choose(len(PARAM_TYPES), f"svc.m{i}.p{j}")]
            pname = f"a{j}"
            m.params.append((pname, t))
        # defaults only on a suffix of the parameters
        for pname, t in reversed(m.params):
            if t in _DEFAULT_SRC and ch.chance(1, 3, f"svc.m{i}.dflt"):
                m.defaults[pname] = _DEFAULT_SRC[t]
            else:
                break
        if kind == "unary":
            m.ret = RET_TYPES[ch.choose(len(RET_TYPES), f"svc.m{i}.ret")]
        else:
            m.header = bool(ch.choose(2, f"svc.m{i}.hdr"))
            if kind == "producer":
                m.state_cls = ["PStateA", "PStateB"][ch.choose(2, f"svc.m{i}.st")]
            else:
                m.state_cls = ["XStateA", "XStateB"][ch.choose(2, f"svc.m{i}.st")]
        methods.append(m)
    return build_service(methods, version=version, uid=uid)


def build_service(methods: list[MethodSpec], version: str | None = None, uid: str = "", ns_extra: dict[str, Any] | None = None) -> Service:
    proto_lines = [f"class Svc{uid}(Protocol):"]
    impl_lines = [f"class Impl{uid}:"]
    if version is not None:
        proto_lines.append(f"    protocol_version: ClassVar[str] = {version!r}")
    for m in methods:
        sig_parts = ["self", "tag: int" + (f" = {m.defaults['tag']}" if "tag" in m.defaults else "")]
        for pname, t in m.params:
            s = f"{pname}: {rt.TYPE_SRC[t]}"
            if pname in m.defaults:
                s += f" = {m.defaults[pname]}"
            sig_parts.append(s)
        if m.kind == "unary":
            ret = rt.TYPE_SRC[m.ret]
        else:
            ret = f"Stream[{m.state_cls}, Hdr]" if m.header else f"Stream[{m.state_cls}]"
        proto_lines.append(f"    def {m.name}({', '.join(sig_parts)}) -> {ret}: ...")
        kw = ", ".join(f"{p}={p}" for p, _ in m.params)
        fn = "RT_unary" if m.kind == "unary" else "RT_stream"
        impl_lines.append(f"    def {m.name}({', '.join(sig_parts + ['*', 'ctx: CallContext'])}) -> {ret}:")
        impl_lines.append(f"        return {fn}({m.name!r}, tag, dict({kw}), ctx)")
    src = "\n".join(proto_lines) + "\n\n" + "\n".join(impl_lines) + "\n"
    ns = dict(rt.GEN_NS)
    ns.update({"Protocol": Protocol, "ClassVar": ClassVar})
    if ns_extra:
        ns.update(ns_extra)
    exec(compile(src, f"<gen-service{uid}>", "exec"), ns)  # noqa: S102
    return Service(methods=methods, protocol=ns[f"Svc{uid}"], impl_cls=ns[f"Impl{uid}"], source=src, version=version)


# ---------------------------------------------------------------------------
# Behaviours and call scripts
# ---------------------------------------------------------------------------


@dataclass
class Call:
    tag: int
    method: str
    kwargs: dict[str, Any]
    beh: rt.Beh
    take: int = 0  # ticks / exchanges attempted before the ending
    ending: str = "exhaust"  # exhaust | close | cancel | ctx
    inputs: list[tuple] = field(default_factory=list)  # exchange inputs: (kind, v, w); kind in ok|nulls|multi
    in_schema: str = "ok"  # ok | reorder | widen | badset | reorder_widen | reorder_nonnull  (one input schema per stream)
    cb_raise_at: int | None = None  # client log callback raises on its i-th invocation within this call
    reject: str | None = None  # None | unknown | version | badparam | badvalue  (pre-dispatch rejection)
    label: str = ""

    def describe(self) -> dict[str, Any]:
        b = self.beh
        return {
            "tag": self.tag, "method": self.method, "kwargs": {k: repr(v) for k, v in self.kwargs.items()},
            "init": [_op_str(o) for o in b.init], "term": _op_str(b.term),
            "steps": [[_op_str(o) for o in st] for st in b.steps], "zero_cols": b.zero_cols, "take": self.take,
            "ending": self.ending, "inputs": self.inputs, "in_schema": self.in_schema, "cb_raise_at": self.cb_raise_at, "reject": self.reject,
            "big": b.big,
        }


def _op_str(op: tuple) -> str:
    parts = []
    for p in op:
        s = repr(p)
        parts.append(s if len(s) < 40 else s[:37] + "...")
    return "(" + ", ".join(parts) + ")"


def gen_log(ch: Any, label: str) -> tuple:
    level = LEVELS[ch.choose(len(LEVELS), label + ".lvl")]
    text = ["log", "", "ünï log", "multi\nline"][ch.choose(4, label + ".txt")] + f"#{ch.choose(1000, label + '.n')}"
    ex = ch.choose(4, label + ".ex")
    extras: dict[str, str] = {}
    if ex == 1:
        extras = {"k": "v"}
    elif ex == 2:
        extras = {"pct": "50", "unicode": "é"}
    elif ex == 3:
        extras = {"detail": "a,b;c", "n": "1"}
    return ("log", level, text, extras)


def gen_raise(ch: Any, label: str, *, simple: bool = False) -> tuple:
    if simple:
        return ("raise", "ValueError", f"boom{ch.choose(1000, label + '.n')}")
    cls = EXC_NAMES[ch.choose(len(EXC_NAMES), label + ".cls")]
    msg = MESSAGES[ch.choose(len(MESSAGES), label + ".msg")]
    return ("raise", cls, msg)


def gen_logs(ch: Any, label: str, maxn: int = 2) -> list[tuple]:
    return [gen_log(ch, f"{label}.l{i}") for i in range(ch.choose(maxn + 1, label + ".nlogs"))]


def gen_kwargs(ch: Any, spec: MethodSpec, tag: int, label: str) -> dict[str, Any]:
    kw: dict[str, Any] = {"tag": tag}
    for j, (pname, t) in enumerate(spec.params):
        if pname in spec.defaults and ch.choose(2, f"{label}.omit{j}"):
            continue
        kw[pname] = rt.make_value(t, tag, j)
    return kw


def effective_kwargs(spec: MethodSpec, kwargs: dict[str, Any]) -> dict[str, Any]:
    """kwargs as the implementation must see them (defaults filled in)."""
    out = {}
    for pname, t in spec.params:
        if pname in kwargs:
            out[pname] = kwargs[pname]
        else:
            out[pname] = _DEFAULT_VAL[t]
    return out


def gen_beh(ch: Any, spec: MethodSpec, label: str, *, outcome: str | None = None, errors: bool = True,
            simple_exc: bool = False, max_steps: int = 4) -> rt.Beh:
    """Draw a behaviour.  ``outcome`` forces a stratum (see OUTCOMES)."""
    b = rt.Beh(kind=spec.kind)
    b.init = gen_logs(ch, label + ".init")
    if spec.kind == "unary":
        o = outcome or ["ok", "ok", "raise", "none"][ch.choose(4 if errors else 2, label + ".out")]
        if o == "raise":
            b.term = gen_raise(ch, label + ".term", simple=simple_exc)
        elif o == "none":
            b.term = ("none",)
        else:
            b.term = ("return",)
        return b
    # streams
    o = outcome or "ok"
    if outcome is None and errors:
        o = ["ok", "ok", "ok", "init_raise", "nonstream", "nohdr", "step_raise", "nodata", "twoemit", "xfinish"][
            ch.choose(10, label + ".out")
        ]
    if o == "init_raise":
        b.term = gen_raise(ch, label + ".term", simple=simple_exc)
        return b
    if o == "nonstream":
        b.term = ("nonstream",)
        return b
    if o == "nohdr" and spec.header:
        b.term = ("nohdr",)
        return b
    b.term = ("stream",)
    if spec.kind == "producer":
        b.zero_cols = ch.chance(1, 6, label + ".zc")
    nsteps = ch.choose(max_steps + 1, label + ".nsteps")
    for i in range(nsteps):
        sl = f"{label}.s{i}"
        ops: list[tuple] = []
        pre = gen_logs(ch, sl + ".pre", 2)
        post = gen_logs(ch, sl + ".post", 1)
        md = None if not ch.chance(1, 3, sl + ".md") else {"app": f"m{i}", "k2": "ü"}
        if spec.kind == "producer":
            rows = ch.choose(4, sl + ".rows")
            ops = pre + [("emit", rows, md)] + post
            if i == nsteps - 1 and ch.chance(1, 3, sl + ".ef"):
                ops.append(("finish",))  # emit + finish in the same step
        else:
            ops = pre + [("emit_in", md)] + post
        b.steps.append(ops)
    if spec.kind == "producer" and nsteps and ch.chance(1, 5, label + ".logfin"):
        b.steps.append(gen_logs(ch, label + ".lf", 2) + [("finish",)])  # logs + finish
    # error strata land at a chosen step
    if o in ("step_raise", "nodata", "twoemit", "xfinish"):
        at = ch.choose(max(1, len(b.steps) + 1), label + ".errat")
        if o == "step_raise":
            ops = gen_logs(ch, label + ".eprel", 2) + [gen_raise(ch, label + ".sr", simple=simple_exc)]
        elif o == "nodata":
            ops = gen_logs(ch, label + ".eprel", 2)
            if not ops:
                ops = []
        elif o == "twoemit":
            ops = [("emit", 1, None), ("emit", 1, None)] if spec.kind == "producer" else [("emit_in", None), ("emit_in", None)]
        else:
            if spec.kind == "producer":
                ops = [("raise", "RuntimeError", "xfinish-n/a")]
            else:
                ops = [("emit_in", None), ("finish",)]
        b.steps = b.steps[:at] + [ops]
    return b


def gen_inputs(ch: Any, n: int, tag: int, label: str, perturb: bool = True) -> list[tuple]:
    out = []
    for i in range(n):
        kind = "ok"
        if perturb:
            kind = ["ok", "ok", "nulls", "multi"][ch.choose(4, f"{label}.in{i}")]
        out.append((kind, tag * 10 + i, f"w{tag}-{i}"))
    return out


def gen_call(ch: Any, svc: Service, tag: int, label: str, *, method: str | None = None, outcome: str | None = None,
             errors: bool = True, client_exits: bool = True, cb_raise: bool = True, simple_exc: bool = False,
             perturb_inputs: bool = True) -> Call:
    spec = svc.spec(method) if method else svc.methods[ch.choose(len(svc.methods), label + ".m")]
    kw = gen_kwargs(ch, spec, tag, label)
    beh = gen_beh(ch, spec, label + ".beh", outcome=outcome, errors=errors, simple_exc=simple_exc)
    c = Call(tag=tag, method=spec.name, kwargs=kw, beh=beh)
    if spec.kind != "unary":
        nsteps = len(beh.steps)
        if spec.kind == "producer":
            c.take = ch.choose(nsteps + 2, label + ".take")
        else:
            c.take = ch.choose(max(nsteps, 2) + 2, label + ".take")
            c.inputs = gen_inputs(ch, c.take + 3, tag, label, perturb_inputs)
            if perturb_inputs:
                c.in_schema = ["ok", "ok", "ok", "reorder", "widen", "badset"][ch.choose(6, label + ".insch")]
        endings = ["exhaust", "close", "cancel", "ctx"] if client_exits else ["exhaust"]
        c.ending = endings[ch.choose(len(endings), label + ".end")]
        if spec.kind == "exchange" and c.ending == "exhaust":
            c.ending = "close"
    if cb_raise and ch.chance(1, 8, label + ".cb"):
        c.cb_raise_at = ch.choose(4, label + ".cbat")
    return c
