"""Reference model: evaluates a call with no transport at all.

``expected(svc, call)`` returns the client-observable trace the property text
prescribes.  Events may belong to an *optional group* (all-or-nothing): logs
emitted by a stream ``init`` that then raises, and logs emitted inside a
``process`` step that then fails.  The framework buffers those in an output
collector that is discarded on error, on every transport; the model accepts
either outcome and C01 separately demands that all transports agree.
"""

from __future__ import annotations

from dataclasses import dataclass
from itertools import product
from typing import Any

from . import rt
from .gen import Call, MethodSpec, Service


@dataclass
class Ev:
    kind: str  # log | header | batch | result | error | end
    data: Any = None
    opt: str | None = None
    step: int | None = None  # for a log emitted inside a stream step: the index of that step

    def key(self) -> tuple:
        return (self.kind, _freeze(self.data))


def _freeze(x: Any) -> Any:
    if isinstance(x, dict):
        return tuple(sorted((k, _freeze(v)) for k, v in x.items()))
    if isinstance(x, (list, tuple)):
        return tuple(_freeze(v) for v in x)
    if isinstance(x, float) and x != x:
        return "NaN"
    return x


def _log_ev(op: tuple, opt: str | None = None) -> Ev:
    _, level, text, extras = op
    return Ev("log", (level, text, {k: str(v) for k, v in (extras or {}).items()}), opt)


def _err_ev(op: tuple) -> Ev:
    _, cls, msg = op
    exc = rt.EXC[cls](msg)
    return Ev("error", (type(exc).__name__, str(exc), rt.ERROR_KINDS.get(cls)))


def norm_value(v: Any) -> Any:
    if isinstance(v, rt.Pt):
        return ("Pt", v.x, v.label)
    if isinstance(v, rt.Color):
        return ("Color", v.name)
    if isinstance(v, rt.Hdr):
        return {"tag": v.tag, "note": v.note}
    return v


def input_batch_expect(call: Call, idx: int) -> tuple[str, Any]:
    """('ok', out pydict) or ('error', (type, msg-contains))."""
    kind, v, w = call.inputs[idx]
    tag = call.tag
    big = call.beh.big
    if call.in_schema == "badset":
        return "error", ("TypeError", "Input schema mismatch", None)
    if kind == "nulls":
        return "ok", {"o": [None], "w": [None]}
    if kind == "multi":
        return "ok", {"o": [v * 2 + tag, (v + 1) * 2 + tag], "w": [rt.pad(w, big), rt.pad(w + "b", big)]}
    return "ok", {"o": [v * 2 + tag], "w": [rt.pad(w, big)]}


def expected(svc: Service, call: Call) -> list[Ev]:
    spec: MethodSpec = svc.spec(call.method)
    b = call.beh
    out: list[Ev] = []
    if call.reject == "unknown":
        return [Ev("error", ("MethodNotImplementedError", "Unknown method", "method_not_implemented"))]
    if call.reject == "version":
        return [Ev("error", ("ProtocolVersionError", "protocol_version mismatch", "protocol_version_mismatch"))]
    if call.reject == "badparam":
        return [Ev("error", ("TypeError", "", None))]
    if spec.kind == "unary":
        out += [_log_ev(op) for op in b.init]
        t = b.term
        if t[0] == "raise":
            out.append(_err_ev(t))
        elif t[0] == "none":
            if spec.ret in ("optint", "none"):
                out.append(Ev("result", None))
            else:
                out.append(Ev("error", ("TypeError", "expected a non-None return value", None)))
        else:
            out.append(Ev("result", norm_value(rt.make_value(spec.ret, call.tag))))
        return out
    # ---- streams
    t = b.term
    if t[0] == "raise":
        out += [_log_ev(op, "init") for op in b.init]
        out.append(_err_ev(t))
        return out
    if t[0] == "nonstream":
        out += [_log_ev(op, "init") for op in b.init]
        out.append(Ev("error", (None, "", None)))
        return out
    if t[0] == "nohdr":
        out += [_log_ev(op, "init") for op in b.init]
        out.append(Ev("error", (None, "", None)))
        return out
    out += [_log_ev(op) for op in b.init]
    if spec.header:
        out.append(Ev("header", {"tag": call.tag, "note": f"hdr{call.tag}"}))
    pos = 0
    while True:
        if spec.kind == "producer":
            ops = b.steps[pos] if pos < len(b.steps) else [("finish",)]
        else:
            if pos >= len(call.inputs):
                break
            ops = b.steps[pos] if pos < len(b.steps) else [("emit_in",)]
            st, val = input_batch_expect(call, pos)
            if st == "error":
                out.append(Ev("error", val))
                return out
        step: list[Ev] = []
        emitted = 0
        finished = False
        err: Ev | None = None
        for op in ops:
            k = op[0]
            if k == "log":
                step.append(_log_ev(op))
            elif k == "emit":
                emitted += 1
                if emitted > 1:
                    err = Ev("error", ("RuntimeError", "Only one data batch may be emitted per call", None))
                    break
                rows, md = op[1], op[2]
                data = {} if b.zero_cols else rt.emit_rows(call.tag, pos, rows, b.big)
                step.append(Ev("batch", (data, rows, dict(md or {}))))
            elif k == "emit_in":
                emitted += 1
                if emitted > 1:
                    err = Ev("error", ("RuntimeError", "Only one data batch may be emitted per call", None))
                    break
                _, val = input_batch_expect(call, pos)
                md = op[1] if len(op) > 1 else None
                step.append(Ev("batch", (val, len(val["o"]), dict(md or {}))))
            elif k == "finish":
                if spec.kind == "exchange":
                    err = Ev("error", ("RuntimeError", "finish() is not allowed on exchange streams", None))
                    break
                finished = True
            elif k == "raise":
                err = _err_ev(op)
                break
        if err is None and not finished and emitted == 0:
            err = Ev("error", ("RuntimeError", "No data batch was emitted", None))
        if err is not None:
            grp = f"step{pos}"
            for e in step:
                if e.kind == "log":
                    e.opt = grp
            # a data batch collected before the failure is never delivered
            out += [e for e in step if e.kind == "log"]
            out.append(err)
            return out
        if spec.kind == "exchange":  # lock-step on every transport: one input, one whole step, one batch
            for e in step:
                if e.kind == "log":
                    e.step = pos
        out += step
        if finished:
            out.append(Ev("end"))
            return out
        pos += 1
    return out


def variants(exp: list[Ev]) -> list[list[Ev]]:
    groups = sorted({e.opt for e in exp if e.opt is not None})
    res = []
    for mask in product([True, False], repeat=len(groups)):
        keep = {g for g, m in zip(groups, mask) if m}
        res.append([e for e in exp if e.opt is None or e.opt in keep])
    return res


def ev_match(obs: tuple, exp: Ev) -> bool:
    """obs is (kind, data) as recorded by the driver."""
    if obs[0] != exp.kind:
        return False
    if exp.kind == "error":
        etype, emsg, ekind = exp.data
        otype, omsg = obs[1][0], obs[1][1]
        if etype is not None and otype != etype:
            return False
        return emsg in omsg
    if exp.kind == "end":
        return True
    return _freeze(obs[1]) == _freeze(exp.data)


def _split(tr: list[Any]) -> tuple[list[Any], list[Any], list[int]]:
    """(data events, log events, for each log: number of data events before it)."""
    data, logs, before = [], [], []
    for e in tr:
        k = e.kind if isinstance(e, Ev) else e[0]
        if k == "log":
            logs.append(e)
            before.append(len(data))
        else:
            data.append(e)
    return data, logs, before


def compare(obs: list[tuple], exp: list[Ev], *, mode: str, min_batches: int = 0) -> str | None:
    """Return None when acceptable, else a description of the first mismatch.

    The trace is compared as the property states it: the ordered sequence of non-log events (header, batches,
    result / error / end) and the ordered sequence of log messages are each compared with the model, and every log
    must be delivered no later (relative to the data events) than the model says - i.e. before the result or batch it
    precedes.  A transport may deliver a log *earlier* (HTTP reads a whole turn before returning its first batch).

    mode 'exact'  : both sequences must equal one variant of exp.
    mode 'prefix' : both must be prefixes of one variant; the data sequence must be complete or contain at least
                    ``min_batches`` batches; every log the model places before the last observed data event must be there.
    A ('cb-exc',) in obs (client callback raised) turns the comparison into a prefix check of what preceded it.
    """
    obs = [o for o in obs if o[0] in ("log", "header", "batch", "result", "error", "end", "cb-exc")]
    cb = None
    for i, o in enumerate(obs):
        if o[0] == "cb-exc":
            cb = i
            break
    if cb is not None:
        tail = obs[cb + 1:]
        if any(o[0] == "result" for o in tail):
            return "result delivered after the log callback raised"
        obs = obs[:cb]
        mode = "prefix"
        min_batches = 0
    od, ol, ob = _split(obs)
    best = None
    for var in variants(exp):
        ed, el, eb = _split(var)
        why = None
        # ---- data sequence
        n = min(len(od), len(ed))
        for i in range(n):
            if not ev_match(od[i], ed[i]):
                why = f"data event {i}: observed {_short(od[i])} expected {_short((ed[i].kind, ed[i].data))}"
                break
        if why is None and len(od) > len(ed):
            why = f"extra data event {len(ed)}: observed {_short(od[len(ed)])} after the expected trace ended"
        if why is None and len(od) < len(ed):
            nxt = _short((ed[len(od)].kind, ed[len(od)].data))
            if mode == "exact":
                why = f"trace ended after {len(od)} data events; expected next {nxt}"
            else:
                nb = sum(1 for o in od if o[0] == "batch")
                if nb < min_batches:
                    why = f"only {nb} batches observed, {min_batches} requested; next expected {nxt}"
        # ---- log sequence
        if why is None:
            n = min(len(ol), len(el))
            for i in range(n):
                if not ev_match(ol[i], el[i]):
                    why = f"log {i}: observed {_short(ol[i])} expected {_short((el[i].kind, el[i].data))}"
                    break
        if why is None and len(ol) > len(el):
            why = f"extra log {len(el)}: {_short(ol[len(el)])}"
        if why is None:
            # logs the model places before an observed data event must have been delivered, and before it
            # a stream step is a unit: when the client holds its data batch the server has run the whole step, so the logs the
            # step emitted AFTER the batch exist too and must be delivered by the time the call ends (close / cancel drain
            # them on the pipe family, HTTP delivers them with the turn) - not only the logs in front of observed data
            nbatches = sum(1 for o in od if o[0] == "batch")
            for i in range(len(el)):
                must = eb[i] < len(od) or (mode == "exact") or (el[i].step is not None and el[i].step < nbatches)
                if i >= len(ol):
                    if must:
                        why = f"log {i} {_short(el[i].data)} was never delivered (expected before data event {eb[i]})"
                    break
                if ob[i] > eb[i]:
                    why = (f"log {i} {_short(el[i].data)} delivered after data event {ob[i] - 1} but it was emitted before "
                           f"data event {eb[i]}")
                    break
        if why is None:
            return None
        best = best or why
    return best or "no variant"


def _short(x: Any) -> str:
    s = repr(x)
    return s if len(s) < 300 else s[:297] + "..."
