"""Drives generated call scripts through a real client proxy and records what the client observes."""

from __future__ import annotations

from typing import Any

import pyarrow as pa

from vgi_rpc.rpc import AnnotatedBatch, RpcError
from vgi_rpc.metadata import ERROR_KIND_KEY  # noqa: F401

from . import rt
from .gen import Call, Service
from .model import norm_value


class CallbackBoom(Exception):
    """Raised by the client-side log callback when the script says so."""


class Observer:
    """Per-connection observer: owns the on_log callback and the per-call traces."""

    def __init__(self, seqfn: Any = None) -> None:
        self.cur: list[tuple] | None = None
        self.cb_count = 0
        self.cb_raise_at: int | None = None
        self.stray: list[tuple] = []
        self.seqfn = seqfn
        self.batch_hook: Any = None  # optional callable(AnnotatedBatch) invoked for every stream batch handed to the caller

    def on_log(self, msg: Any) -> None:
        extras = dict(msg.extra or {})
        extras.pop("server_id", None)
        extras.pop("request_id", None)
        # logs emitted by an on_cancel hook carry a marker text and are kept apart from the call's ordinary log sequence
        ev = ("cancel-log" if str(msg.message).startswith("oncancel") else "log",
              (msg.level.name, msg.message, {k: str(v) for k, v in extras.items()}))
        if self.cur is None:
            self.stray.append(ev)
            return
        self.cur.append(ev)
        n = self.cb_count
        self.cb_count += 1
        if self.cb_raise_at is not None and n == self.cb_raise_at:
            raise CallbackBoom(f"callback raised at invocation {n}")

    def begin(self, call: Call) -> list[tuple]:
        self.cur = []
        self.cb_count = 0
        self.cb_raise_at = call.cb_raise_at
        return self.cur

    def end(self) -> None:
        self.cur = None
        self.cb_raise_at = None


def _norm_md(cm: Any) -> dict[str, str]:
    if cm is None:
        return {}
    out = {}
    for k, v in cm.items():
        ks = k.decode("utf-8", "replace") if isinstance(k, bytes) else str(k)
        if ks.startswith("vgi_rpc."):
            continue
        out[ks] = v.decode("utf-8", "replace") if isinstance(v, bytes) else str(v)
    return out


def _batch_ev(ab: Any) -> tuple:
    b = ab.batch
    data = b.to_pydict()
    return ("batch", (data, b.num_rows, _norm_md(ab.custom_metadata)))


def _err_ev(e: RpcError) -> tuple:
    return ("error", (e.error_type, e.error_message, getattr(e, "error_kind", "<no-attr>")))


def make_input(call: Call, idx: int) -> AnnotatedBatch:
    kind, v, w = call.inputs[idx]
    if kind == "nulls":
        vs: list[Any] = [None]
        ws: list[Any] = [None]
    elif kind == "multi":
        vs, ws = [v, v + 1], [w, w + "b"]
    else:
        vs, ws = [v], [w]
    sk = call.in_schema
    if sk == "reorder":
        return AnnotatedBatch(pa.RecordBatch.from_pydict({"w": ws, "v": vs}, schema=pa.schema(
            [pa.field("w", pa.string()), pa.field("v", pa.int64())])))
    if sk == "reorder_widen":
        return AnnotatedBatch(pa.RecordBatch.from_pydict({"w": ws, "v": vs}, schema=pa.schema(
            [pa.field("w", pa.string()), pa.field("v", pa.int32())])))
    if sk == "reorder_nonnull":
        return AnnotatedBatch(pa.RecordBatch.from_pydict({"w": ws, "v": vs}, schema=pa.schema(
            [pa.field("w", pa.string(), nullable=False), pa.field("v", pa.int64(), nullable=False)])))
    if sk == "widen":
        return AnnotatedBatch(pa.RecordBatch.from_pydict({"v": vs, "w": ws}, schema=pa.schema(
            [pa.field("v", pa.int32()), pa.field("w", pa.string())])))
    if sk == "badset":
        return AnnotatedBatch(pa.RecordBatch.from_pydict({"v": vs, "zzz": ws}, schema=pa.schema(
            [pa.field("v", pa.int64()), pa.field("zzz", pa.string())])))
    return AnnotatedBatch(pa.RecordBatch.from_pydict({"v": vs, "w": ws}, schema=rt.XIN_SCHEMA))


def drive(proxy: Any, svc: Service, call: Call, ob: Observer, *, after_cancel_probe: bool = True) -> list[tuple]:
    """Execute one call; returns the observed trace (list of (kind, data))."""
    spec = svc.spec(call.method) if call.reject != "unknown" else None
    tr = ob.begin(call)
    try:
        fn = getattr(proxy, call.method)
        if spec is not None and spec.kind == "unary" or (spec is None and call.beh.kind == "unary"):
            try:
                v = fn(**call.kwargs)
                tr.append(("result", norm_value(v)))
            except RpcError as e:
                tr.append(_err_ev(e))
            except CallbackBoom:
                tr.append(("cb-exc",))
            return tr
        # ---- stream
        kind = spec.kind if spec is not None else call.beh.kind
        try:
            sess = fn(**call.kwargs)
        except RpcError as e:
            tr.append(_err_ev(e))
            return tr
        except CallbackBoom:
            tr.append(("cb-exc",))
            return tr
        if sess.header is not None:
            tr.append(("header", norm_value(sess.header)))
        done = False
        cb = False
        it = iter(sess) if kind == "producer" else None

        def one(i: int) -> bool:
            """returns True when the stream ended (end/error)."""
            nonlocal cb
            try:
                if kind == "producer":
                    assert it is not None
                    ab = next(it)
                else:
                    ab = sess.exchange(make_input(call, i))
                tr.append(_batch_ev(ab))
                if ob.batch_hook is not None:
                    ob.batch_hook(ab)
                return False
            except StopIteration:
                tr.append(("end",))
                return True
            except RpcError as e:
                tr.append(_err_ev(e))
                return True
            except CallbackBoom:
                tr.append(("cb-exc",))
                cb = True
                return True

        i = 0
        while i < call.take and not done:
            done = one(i)
            i += 1
        if not done and call.ending == "exhaust" and kind == "producer":
            guard = 0
            while not done and guard < 64:
                done = one(i)
                i += 1
                guard += 1
        # ending
        try:
            if call.ending == "cancel" and not done:
                sess.cancel()
                tr.append(("cancelled",))
                if after_cancel_probe:
                    try:
                        if kind == "producer":
                            next(iter(sess))
                        else:
                            sess.exchange(make_input(call, 0))
                        tr.append(("use-after-cancel-accepted",))
                    except RpcError as e:
                        tr.append(("refused", e.error_type))
                    except StopIteration:
                        tr.append(("use-after-cancel-stopiteration",))
            else:
                sess.close()
                tr.append(("closed",))
        except RpcError as e:
            tr.append(("close-error", (e.error_type, e.error_message)))
        except CallbackBoom:
            tr.append(("cb-exc",))
        return tr
    finally:
        ob.end()


def split_protocol_events(tr: list[tuple]) -> tuple[list[tuple], list[tuple]]:
    """Separate client-lifecycle markers from the semantic trace."""
    sem = [e for e in tr if e[0] in ("log", "header", "batch", "result", "error", "end", "cb-exc")]
    life = [e for e in tr if e[0] not in ("log", "header", "batch", "result", "error", "end", "cb-exc")]
    return sem, life
