"""C13 / D4 — a stream token pair is accepted by the exchange endpoint of a method that did not mint it.

Standalone (vgi_rpc + falcon's in-process test client only; no /verif code):
    /venv/bin/python /verif/findings/repro/c13_token_accepted_by_other_method.py

Neither the cursor token nor the call token (nor their AAD, nor the call-state cache key) names the method, so
POST /<other>/exchange opens them, deserialises the state bytes into the OTHER method's state class and runs it:
  same-class          pa_ and pb_ both return Stream[Counter]
  compatible-layout   pc_ returns Stream[Counter2] (different class, same fields)
  different-layout    pd_ returns Stream[Other] (fields n, note: missing ones take their defaults)
  union               pu_ returns Stream[Counter | Other]  ->  token of pv_ (Stream[Other | Counter]): tag 0 means another class
each with a warm call-state cache (default) and with the cache disabled (call_state_cache_entries=0).
"""

from dataclasses import dataclass
from io import BytesIO
from typing import Protocol

import pyarrow as pa
from pyarrow import ipc

from vgi_rpc import RpcServer
from vgi_rpc.http._testing import make_sync_client
from vgi_rpc.metadata import CALL_STATE_KEY, STATE_KEY
from vgi_rpc.rpc import CallContext, OutputCollector, ProducerState, Stream, rpc_methods
from vgi_rpc.rpc._wire import _send_request

OUT = pa.schema([pa.field("who", pa.string()), pa.field("n", pa.int64())])
CT = {"Content-Type": "application/vnd.apache.arrow.stream"}


@dataclass
class Counter(ProducerState):
    n: int = 0
    minted_by: str = ""

    def produce(self, out: OutputCollector, ctx: CallContext) -> None:
        self.n += 1
        out.emit_pydict({"who": [f"{type(self).__name__} minted by {self.minted_by!r}"], "n": [self.n]})


@dataclass
class Counter2(ProducerState):
    n: int = 0
    minted_by: str = ""

    def produce(self, out: OutputCollector, ctx: CallContext) -> None:
        self.n += 1000
        out.emit_pydict({"who": [f"{type(self).__name__} minted by {self.minted_by!r}"], "n": [self.n]})


@dataclass
class Other(ProducerState):
    n: int = 0
    note: str = "default-note"

    def produce(self, out: OutputCollector, ctx: CallContext) -> None:
        self.n -= 1
        out.emit_pydict({"who": [f"{type(self).__name__} note={self.note!r}"], "n": [self.n]})


class Svc(Protocol):
    def pa_(self) -> Stream[Counter]: ...
    def pb_(self) -> Stream[Counter]: ...
    def pc_(self) -> Stream[Counter2]: ...
    def pd_(self) -> Stream[Other]: ...
    def pu_(self) -> Stream[Counter | Other]: ...
    def pv_(self) -> Stream[Other | Counter]: ...


class Impl:
    def pa_(self) -> Stream[Counter]:
        return Stream(output_schema=OUT, state=Counter(0, "pa_"))

    def pb_(self) -> Stream[Counter]:
        return Stream(output_schema=OUT, state=Counter(0, "pb_"))

    def pc_(self) -> Stream[Counter2]:
        return Stream(output_schema=OUT, state=Counter2(0, "pc_"))

    def pd_(self) -> Stream[Other]:
        return Stream(output_schema=OUT, state=Other(0, "pd_"))

    def pu_(self) -> Stream[Counter | Other]:
        return Stream(output_schema=OUT, state=Counter(0, "pu_"))

    def pv_(self) -> Stream[Other | Counter]:
        return Stream(output_schema=OUT, state=Other(0, "pv_"))


INFOS = rpc_methods(Svc)


def init(client, method):
    buf = BytesIO()
    _send_request(buf, INFOS[method], {})
    r = client.post(f"http://test/{method}/init", content=buf.getvalue(), headers=CT)
    assert r.status_code == 200, r.status_code
    tokens = {}
    rd = ipc.open_stream(BytesIO(r.content))
    while True:
        try:
            b, md = rd.read_next_batch_with_custom_metadata()
        except StopIteration:
            break
        if md is not None and md.get(STATE_KEY) is not None:
            tokens = {STATE_KEY: md[STATE_KEY], CALL_STATE_KEY: md[CALL_STATE_KEY]}
    return tokens


def continuation(client, method, tokens):
    buf = BytesIO()
    empty = pa.schema([])
    with ipc.new_stream(buf, empty) as w:
        w.write_batch(pa.RecordBatch.from_pylist([], schema=empty), custom_metadata=pa.KeyValueMetadata(tokens))
    r = client.post(f"http://test/{method}/exchange", content=buf.getvalue(), headers=CT)
    rows, errs = [], []
    rd = ipc.open_stream(BytesIO(r.content))
    while True:
        try:
            b, md = rd.read_next_batch_with_custom_metadata()
        except StopIteration:
            break
        if md is not None and md.get(b"vgi_rpc.log_level") == b"EXCEPTION":
            errs.append(md.get(b"vgi_rpc.log_message"))
        elif b.num_rows:
            rows.append(b.to_pylist())
    return r.status_code, rows, errs


bad = 0
for cache in (4096, 0):
    client = make_sync_client(RpcServer(Svc, Impl()), token_key=b"k" * 32, call_state_cache_entries=cache, compression_level=None)
    for cause, mint, other in [("same-class", "pa_", "pb_"), ("compatible-layout", "pa_", "pc_"), ("different-layout", "pa_", "pd_"),
                               ("union", "pv_", "pu_")]:
        tokens = init(client, mint)
        status, rows, errs = continuation(client, other, tokens)
        verdict = "ACCEPTED (defect)" if status == 200 and rows else "rejected"
        bad += status == 200 and bool(rows)
        print(f"cache={cache:4d} {cause:18s} tokens of /{mint}/init -> POST /{other}/exchange: HTTP {status} {verdict} rows={rows} errors={errs}")
    client.close()
print("misrouted token pairs accepted:", bad, "(expected by property C13: 0)")
