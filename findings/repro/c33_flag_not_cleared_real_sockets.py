import os, socket, sys, threading, time
sys.path.insert(0, "/verif")
from sims.s5_pool import S5Proto, S5Impl
from vgi_rpc.rpc import RpcServer, serve_unix
from vgi_rpc.rpc._client import _RpcProxy
from vgi_rpc.rpc._transport import UnixTransport
path = "/tmp/w.sock"
if os.path.exists(path): os.unlink(path)
srv = RpcServer(S5Proto, S5Impl(pid=7))
t0 = time.monotonic()
ret = {}
def run():
    serve_unix(srv, path, threaded=True, idle_timeout=0.3)
    ret["t"] = time.monotonic() - t0
th = threading.Thread(target=run, daemon=True); th.start()
while not os.path.exists(path): time.sleep(0.01)
t0 = time.monotonic()
def conn():
    s = socket.socket(socket.AF_UNIX); s.connect(path); return UnixTransport(s)
a = conn(); time.sleep(0.05); a.close()          # first client: count 1 -> 0, idle timer (0.3 s) armed at ~0.05
time.sleep(0.40)                                  # timer fires at ~0.35 with zero connections -> flag set
b = conn(); p = _RpcProxy(S5Proto, b, None)       # accepted at ~0.45, before the accept timeout at ~0.5+
print("t=%.2f second client connected, ping ->" % (time.monotonic() - t0), p.ping(tag=1, logs=0))
time.sleep(1.0)
print("t=%.2f serve_unix thread alive=%s, socket path exists=%s" % (time.monotonic() - t0, th.is_alive(), os.path.exists(path)))
time.sleep(11.0)
print("t=%.2f serve_unix returned at t=%s, thread alive=%s, socket path exists=%s, client still connected; ping ->" % (
    time.monotonic() - t0, ret.get("t"), th.is_alive(), os.path.exists(path)), p.ping(tag=2, logs=0))
b.close()
import os,sys; sys.stdout.flush(); os._exit(0)
