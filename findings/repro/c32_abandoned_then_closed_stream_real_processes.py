import sys, os
sys.path.insert(0, "/repo/tests")
from test_pool import PoolTestService, _pool_worker_cmd
from vgi_rpc import WorkerPool
cmd = _pool_worker_cmd()
with WorkerPool(max_idle=2) as pool:
    with pool.connect(PoolTestService, cmd) as svc:
        pid1 = None
        s1 = svc.echo(dummy=0)          # exchange stream opened and abandoned (never closed)
        s2 = svc.echo(dummy=1)          # a later stream on the same connection ...
        try:
            s2.close()                  # ... that IS closed cleanly
        except Exception as e:
            print("borrower 1: s2.close() ->", type(e).__name__, e)
    m = pool.metrics
    print("after borrower 1: idle=%d discards=%d returns=%d" % (m.idle, m.discards, m.returns))
    with pool.connect(PoolTestService, cmd) as svc:
        try:
            print("borrower 2: add(1,2) ->", svc.add(a=1.0, b=2.0))
        except BaseException as e:
            print("borrower 2: add(1,2) raised", type(e).__name__, str(e)[:200])
        try:
            print("borrower 2: add(10,20) ->", svc.add(a=10.0, b=20.0))
        except BaseException as e:
            print("borrower 2: add(10,20) raised", type(e).__name__, str(e)[:200])
    print("metrics:", pool.metrics)
sys.stdout.flush(); os._exit(0)
