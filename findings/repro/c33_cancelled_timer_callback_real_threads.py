"""A cancelled idle timer whose callback had already started runs after a later connection ended:
the worker leaves 0.5 s after that connection instead of idle_timeout (5 s) after it."""
import os, socket, sys, threading, time
sys.path.insert(0, "/verif")
from sims.s5_pool import S5Proto, S5Impl
import vgi_rpc.rpc._transport as T
from vgi_rpc.rpc import RpcServer, serve_unix

firing, go = threading.Event(), threading.Event()
class SlowTimer(threading.Timer):
    """threading.Timer.run with a pause between the is_set() check and the call (= the thread is descheduled there)."""
    def run(self):
        self.finished.wait(self.interval)
        if not self.finished.is_set():
            if self.interval == 5.0:      # the idle timer (not the 60 s start-up grace)
                firing.set(); go.wait()
            self.function(*self.args, **self.kwargs)
        self.finished.set()
import types; T.threading = types.SimpleNamespace(**{k: getattr(threading, k) for k in dir(threading) if not k.startswith("__")})
T.threading.Timer = SlowTimer
path = "/tmp/w2.sock"
if os.path.exists(path): os.unlink(path)
srv = RpcServer(S5Proto, S5Impl(pid=7)); ret = {}
def run():
    serve_unix(srv, path, threaded=True, idle_timeout=5.0); ret["t"] = time.monotonic() - t0
th = threading.Thread(target=run, daemon=True); th.start()
while not os.path.exists(path): time.sleep(0.01)
t0 = time.monotonic()
def probe():
    s = socket.socket(socket.AF_UNIX); s.connect(path); s.close()
probe()                                   # first connection: count 1 -> 0, idle timer (5 s) armed at t~0
firing.wait()                             # t~5.0: the timer thread is past its is_set() check
probe(); time.sleep(0.2)                  # a connection comes and goes: timer cancelled (too late), a NEW 5 s timer armed
t_conn = time.monotonic() - t0
go.set()                                  # the old callback now runs: conn_count == 0 -> shutdown_requested = True
th.join(8)
print("last connection ended at t=%.2f; serve_unix returned at t=%s (idle_timeout=5.0 -> expected >= %.2f)" % (t_conn, ret.get("t"), t_conn + 5.0))
sys.stdout.flush(); os._exit(0)
