import os, sys
sys.path.insert(0, "/repo/tests")
from test_pool import PoolTestService, _pool_worker_cmd
from vgi_rpc import WorkerPool
with WorkerPool(max_idle=0) as pool:
    with pool.connect(PoolTestService, _pool_worker_cmd()) as svc:
        svc.add(a=1.0, b=2.0)
    print("max_idle=0, after the first return: idle_count =", pool.idle_count, pool.metrics)
sys.stdout.flush(); os._exit(0)
