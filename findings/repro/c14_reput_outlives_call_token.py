"""C14 / D9 — a call-state cache entry re-put on a miss outlives the call token it was opened from.

Standalone (vgi_rpc + falcon's in-process test client; no /verif code):
    /venv/bin/python /verif/findings/repro/c14_reput_outlives_call_token.py

token_ttl = 100.  /init on worker w1 at t=1000 (call token created_at = 1000).  At t=1060 the continuation lands on w2:
cache miss, the call token (age 60) is opened and the resolved call is put into w2's cache with expiry now + ttl = 1160
(_unpack_and_recover_state: ``app._call_state_cache.put(call_id, auth, resolved, now)``).  At t=1120 the next continuation
(fresh cursor, age 60) is
  * served by w2 (cache hit, the call token is not looked at),
  * rejected by w1 (its entry expired at 1100 -> miss -> "Call token expired") and by a worker with an empty cache.
The same happens on a single worker: a miss at t=1100 re-puts until t=1200.
"""

from dataclasses import dataclass
from io import BytesIO
from typing import Protocol

import pyarrow as pa
from pyarrow import ipc

import vgi_rpc.http.server._app_stream as m_stream
import vgi_rpc.http.server._state_token as m_tok
from vgi_rpc import RpcServer
from vgi_rpc.http._testing import make_sync_client
from vgi_rpc.metadata import CALL_STATE_KEY, STATE_KEY
from vgi_rpc.rpc import CallContext, OutputCollector, ProducerState, Stream, rpc_methods
from vgi_rpc.rpc._wire import _send_request


class Clock:
    """Stands in for the ``time`` module inside the two token modules."""

    now = 1000.0

    def time(self) -> float:
        return self.now

    def monotonic(self) -> float:
        return self.now


clock = Clock()
m_tok.time = clock  # type: ignore[assignment]
m_stream.time = clock  # type: ignore[assignment]

OUT = pa.schema([pa.field("n", pa.int64())])
CT = {"Content-Type": "application/vnd.apache.arrow.stream"}


@dataclass
class Counter(ProducerState):
    n: int = 0

    def produce(self, out: OutputCollector, ctx: CallContext) -> None:
        self.n += 1
        out.emit_pydict({"n": [self.n]})


class Svc(Protocol):
    def count(self) -> Stream[Counter]: ...


class Impl:
    def count(self) -> Stream[Counter]:
        return Stream(output_schema=OUT, state=Counter())


def worker():
    return make_sync_client(RpcServer(Svc, Impl()), token_key=b"k" * 32, token_ttl=100, compression_level=None)


def read(resp):
    rows, errs, toks = [], [], {}
    rd = ipc.open_stream(BytesIO(resp.content))
    while True:
        try:
            b, md = rd.read_next_batch_with_custom_metadata()
        except StopIteration:
            break
        if md is not None and md.get(b"vgi_rpc.log_level") == b"EXCEPTION":
            errs.append(md.get(b"vgi_rpc.log_message").decode())
        if md is not None:
            for k in (STATE_KEY, CALL_STATE_KEY):
                if md.get(k) is not None:
                    toks[k] = md[k]
        if b.num_rows:
            rows += b.to_pylist()
    return resp.status_code, rows, errs, toks


def cont(client, cursor, call):
    buf = BytesIO()
    empty = pa.schema([])
    with ipc.new_stream(buf, empty) as w:
        w.write_batch(pa.RecordBatch.from_pylist([], schema=empty), custom_metadata=pa.KeyValueMetadata({STATE_KEY: cursor, CALL_STATE_KEY: call}))
    return read(client.post("http://test/count/exchange", content=buf.getvalue(), headers=CT))


w1, w2 = worker(), worker()
buf = BytesIO()
_send_request(buf, rpc_methods(Svc)["count"], {})
status, rows, errs, toks = read(w1.post("http://test/count/init", content=buf.getvalue(), headers=CT))
call, cur0 = toks[CALL_STATE_KEY], toks[STATE_KEY]
print(f"t={clock.now:.0f} init on w1: {status} rows={rows}")

clock.now = 1060.0
status, rows, errs, toks = cont(w2, cur0, call)
cur1 = toks[STATE_KEY]
print(f"t={clock.now:.0f} continuation on w2 (miss, call token age 60): {status} rows={rows}")

clock.now = 1120.0
s2_, rows2, errs2, _ = cont(w2, cur1, call)
print(f"t={clock.now:.0f} continuation on w2 (cursor age 60, call token age 120 > ttl 100): {s2_} rows={rows2} errors={errs2}")
s1_, rows1, errs1, _ = cont(w1, cur1, call)
print(f"t={clock.now:.0f} same request on w1 (entry expired at 1100):                        {s1_} rows={rows1} errors={errs1}")
s3_, rows3, errs3, _ = cont(worker(), cur1, call)
print(f"t={clock.now:.0f} same request on a worker with an empty cache:                     {s3_} rows={rows3} errors={errs3}")
print("outcome depends on the cache:", (s2_, rows2) != (s3_, rows3), "(property C14 expects False)")
